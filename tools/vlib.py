"""Shared machinery of ./check: Coq build + assumption audit, oracle build,
harness builds, running both sides, transcript comparison, evidence."""
import hashlib
import json
import os
import re
import shutil
import subprocess
import sys
import time

VERIF = os.path.dirname(os.path.dirname(os.path.abspath(__file__)))
COQ = os.path.join(VERIF, "coq")
BUILD = os.path.join(VERIF, ".build")
ORACLE_DIR = os.path.join(BUILD, "oracle")
HARNESS = os.path.join(VERIF, "harness")
REPO = os.environ.get("VERIF_REPO", "/repo")   # overridden only by tools/sandbox_eval.sh (evaluation of patches on a copy)

ENV = dict(os.environ)
ENV["CARGO_NET_OFFLINE"] = "true"
ENV.setdefault("CARGO_TERM_COLOR", "never")

FORBIDDEN = re.compile(
    r"\b(Admitted|admit|Axiom|Axioms|Parameter|Parameters|Conjecture|Conjectures|Hypothesis|Hypotheses|Variable|Variables|"
    r"Admit Obligations|Unset Guard Checking|Unset Positivity Checking|Unset Universe Checking|bypass_check|"
    r"type-in-type|impredicative-set|native_compute)\b"
)
# axioms of the standard library a theorem may depend on (none is needed so far)
AXIOM_ALLOW = set()


def log(*a):
    print(*a, file=sys.stderr, flush=True)


def sh(cmd, cwd=None, timeout=3600, env=None, stdin=None):
    p = subprocess.run(cmd, cwd=cwd, timeout=timeout, env=env or ENV, input=stdin,
                       stdout=subprocess.PIPE, stderr=subprocess.STDOUT, text=True)
    return p.returncode, p.stdout


# --------------------------------------------------------------------------
# Coq
# --------------------------------------------------------------------------
def coq_sources():
    out = []
    for root, _, files in os.walk(COQ):
        for f in files:
            if f.endswith(".v"):
                out.append(os.path.join(root, f))
    return sorted(out)


def strip_comments(text):
    # remove (possibly nested) Coq comments
    out, depth, i = [], 0, 0
    while i < len(text):
        if text.startswith("(*", i):
            depth += 1
            i += 2
        elif text.startswith("*)", i) and depth > 0:
            depth -= 1
            i += 2
        else:
            if depth == 0:
                out.append(text[i])
            i += 1
    return "".join(out)


def audit_sources():
    """No Admitted/Axiom/... anywhere in the development. Returns list of offences."""
    bad = []
    for f in coq_sources():
        body = strip_comments(open(f).read())
        for m in FORBIDDEN.finditer(body):
            # `Variable`/`Hypothesis` are allowed inside a Section only
            w = m.group(1)
            if w in ("Variable", "Variables", "Hypothesis", "Hypotheses"):
                before = body[: m.start()]
                if len(re.findall(r"\bSection\s+\w+", before)) > len(re.findall(r"\bEnd\s+\w+\s*\.", before)):
                    continue
            bad.append("%s: %s" % (os.path.relpath(f, VERIF), w))
    return bad


def coq_make():
    """Full .vo build through coq_makefile (no -vos). Returns (ok, output)."""
    if not os.path.exists(os.path.join(COQ, "Makefile")) or \
            os.path.getmtime(os.path.join(COQ, "Makefile")) < os.path.getmtime(os.path.join(COQ, "_CoqProject")):
        rc, out = sh(["coq_makefile", "-f", "_CoqProject", "-o", "Makefile"], cwd=COQ)
        if rc != 0:
            return False, out
    rc, out = sh(["make", "-j16"], cwd=COQ, timeout=3000)
    return rc == 0, out


def coq_flags():
    fl = []
    for line in open(os.path.join(COQ, "_CoqProject")):
        t = line.split()
        if len(t) == 3 and t[0] in ("-R", "-Q"):
            fl += [t[0], os.path.join(COQ, t[1]), t[2]]
    return fl


def coq_check_props(pid, workdir):
    """Re-compile Props/<pid>.v afresh, collect `Print Assumptions` output per theorem.
    Returns dict(ok, theorems=[(name, closed, axioms)], output)."""
    src = os.path.join(COQ, "Props", pid + ".v")
    if not os.path.exists(src):
        return dict(ok=False, theorems=[], output="missing " + src)
    dst = os.path.join(workdir, pid + "_recheck.v")
    shutil.copy(src, dst)
    rc, out = sh(["coqc", "-noglob"] + coq_flags() + [dst], cwd=workdir, timeout=1200)
    body = strip_comments(open(src).read())
    names = re.findall(r"\b(?:Theorem|Corollary)\s+(\w+)", body)
    printed = re.findall(r"Print Assumptions\s+(\w+)", body)
    # split the output in one block per Print Assumptions
    blocks = []
    cur = None
    for line in out.splitlines():
        if line.startswith("Closed under the global context"):
            blocks.append(("closed", []))
            cur = None
        elif line.startswith("Axioms:"):
            cur = []
            blocks.append(("axioms", cur))
        elif cur is not None and line.strip():
            cur.append(line.strip())
    theorems = []
    ok = rc == 0 and len(blocks) == len(printed) and set(names) <= set(printed)
    for i, n in enumerate(printed):
        if i < len(blocks):
            kind, ax = blocks[i]
            axn = [a.split(":")[0].strip() for a in ax if ":" in a]
            closed = kind == "closed" or all(a in AXIOM_ALLOW for a in axn)
            theorems.append((n, closed, axn))
            ok = ok and closed
        else:
            theorems.append((n, False, ["<no output>"]))
    return dict(ok=ok, theorems=theorems, output=out, rc=rc, names=names)


def props_pin(pid):
    """hash of Props/<pid>.v with comments and whitespace removed (the pinned statements)"""
    src = os.path.join(COQ, "Props", pid + ".v")
    if not os.path.exists(src):
        return None
    body = re.sub(r"\s+", "", strip_comments(open(src).read()))
    return hashlib.sha256(body.encode()).hexdigest()


def tie_pin():
    """hash of the hand-written tie files coq/Tie/*.v (statements and proofs), comments and whitespace removed"""
    h = hashlib.sha256()
    d = os.path.join(COQ, "Tie")
    for f in sorted(os.listdir(d)):
        if f.endswith(".v"):
            h.update(f.encode())
            h.update(re.sub(r"\s+", "", strip_comments(open(os.path.join(d, f)).read())).encode())
    return h.hexdigest()


def props_pin_check(pid):
    """(ok, message): the property file is the pinned one (coq/props.pinned.json, committed)"""
    f = os.path.join(COQ, "props.pinned.json")
    if not os.path.exists(f):
        return False, "coq/props.pinned.json is missing"
    pins = json.load(open(f))
    h = props_pin(pid)
    if pins.get(pid) != h:
        return False, "Props/%s.v differs from its pinned statements (pinned %s, found %s)" % (pid, pins.get(pid), h)
    if pins.get("Tie") != tie_pin():
        return False, "coq/Tie/*.v differ from the pinned tie lemmas (pinned %s, found %s)" % (pins.get("Tie"), tie_pin())
    return True, ""


def coq_dep_cone(pid):
    """Files in the dependency cone of Props/<pid>.v and the number of proved statements in them."""
    rc, out = sh(["coqdep"] + coq_flags() + [f for f in coq_sources() if "/Tie/" not in f], cwd=COQ)
    deps = {}
    for line in out.splitlines():
        if ":" not in line:
            continue
        lhs, rhs = line.split(":", 1)
        tgt = [t for t in lhs.split() if t.endswith(".vo")]
        if not tgt:
            continue
        deps[os.path.abspath(os.path.join(COQ, tgt[0]))[:-1]] = [
            os.path.abspath(os.path.join(COQ, d))[:-1] for d in rhs.split() if d.endswith(".vo")]
    root = os.path.join(COQ, "Props", pid + ".v")
    seen, todo = set(), [root]
    while todo:
        f = todo.pop()
        if f in seen:
            continue
        seen.add(f)
        todo += deps.get(f, [])
    n = 0
    for f in seen:
        if os.path.exists(f):
            body = strip_comments(open(f).read())
            n += len(re.findall(r"^\s*(?:Lemma|Theorem|Corollary|Example|Fact|Remark)\s+\w+", body, re.M))
    return sorted(os.path.relpath(f, COQ) for f in seen if os.path.exists(f)), n


# --------------------------------------------------------------------------
# the source-derived tie: declarations and tables regenerated from /repo on every run (tools/rs2coq.py),
# compared with the hand-written model by the lemmas of coq/Tie/*.v
# --------------------------------------------------------------------------
TIE_DIR = os.path.join(BUILD, "tie")
TIE_FILES = ["Src", "TieLib", "TieConv", "TieMbi", "TieHdr", "TieProps"]
TIE_DEPS = {"Src": [], "TieLib": [], "TieConv": ["Src"], "TieMbi": ["Src", "TieLib"], "TieHdr": ["Src", "TieLib"],
            "TieProps": ["Src", "TieLib", "TieConv", "TieMbi", "TieHdr"]}
# notes the translator prints on the unchanged tree (generic code it does not translate by design)
TIE_BASELINE_NOTES = {"const DynSizedStructure::BASE_SIZE (multiboot2-common/src/tag.rs): unknown type: H"}


def source_tie():
    """Regenerate Src.v from /repo's working tree and re-check the tie lemmas.  Returns
    dict(files={name: dict(ok, output)}, notes=[...], new_notes=[...], emitted=n, literals=[...], theorems=[(name, closed)])"""
    os.makedirs(TIE_DIR, exist_ok=True)
    import fcntl
    lock = open(os.path.join(TIE_DIR, ".lock"), "w")
    fcntl.flock(lock, fcntl.LOCK_EX)
    try:
        return _source_tie()
    finally:
        fcntl.flock(lock, fcntl.LOCK_UN)
        lock.close()


def _source_tie():
    srcv = os.path.join(TIE_DIR, "Src.v")
    facts = os.path.join(TIE_DIR, "facts.json")
    rc, out = sh([sys.executable, os.path.join(VERIF, "tools", "rs2coq.py"), REPO, srcv, facts], timeout=300)
    if rc != 0 or not os.path.exists(facts):
        return dict(files={f: dict(ok=False, output="rs2coq failed:\n" + out[-2000:]) for f in TIE_FILES}, notes=[out[-500:]],
                    new_notes=["rs2coq failed"], emitted=0, literals=[], theorems=[])
    fx = json.load(open(facts))
    for f in TIE_FILES[1:]:
        src = os.path.join(COQ, "Tie", f + ".v")
        dst = os.path.join(TIE_DIR, f + ".v")
        if not os.path.exists(dst) or open(src).read() != open(dst).read():
            shutil.copy(src, dst)
    # key of everything the tie depends on: generated file, tie sources, the compiled development
    h = hashlib.sha256()
    for f in TIE_FILES:
        h.update(open(os.path.join(TIE_DIR, f + ".v"), "rb").read())
    for f in sorted(coq_sources()):
        if "/Tie/" in f:
            continue
        vo = f + "o"
        h.update(("%s %s\n" % (f, os.path.getmtime(vo) if os.path.exists(vo) else "missing")).encode())
    key = h.hexdigest()
    state_f = os.path.join(TIE_DIR, "state.json")
    state = None
    if os.path.exists(state_f):
        try:
            state = json.load(open(state_f))
        except ValueError:
            state = None
    if not state or state.get("key") != key:
        files = {}
        flags = coq_flags() + ["-R", TIE_DIR, "MB2Tie"]
        for f in TIE_FILES:
            bad = [d for d in TIE_DEPS[f] if not files[d]["ok"]]
            if bad:
                files[f] = dict(ok=False, output="not checked: depends on %s" % ", ".join(bad))
                continue
            vo = os.path.join(TIE_DIR, f + ".vo")
            if os.path.exists(vo):
                os.remove(vo)
            rc, out = sh(["timeout", "600", "coqc", "-noglob"] + flags + [f + ".v"], cwd=TIE_DIR, timeout=700)
            files[f] = dict(ok=rc == 0, output=out[-3000:])
        state = dict(key=key, files=files)
        with open(state_f, "w") as fh:
            json.dump(state, fh)
    files = state["files"]
    theorems = []
    if files["TieProps"]["ok"]:
        body = strip_comments(open(os.path.join(TIE_DIR, "TieProps.v")).read())
        printed = re.findall(r"Print Assumptions\s+(\w+)", body)
        closed = [l for l in files["TieProps"]["output"].splitlines()
                  if l.startswith("Closed under the global context") or l.startswith("Axioms:")]
        for i, n in enumerate(printed):
            theorems.append((n, i < len(closed) and closed[i].startswith("Closed")))
        if len(closed) != len(printed) or not all(t[1] for t in theorems):
            files["TieProps"] = dict(ok=False, output="assumptions not closed:\n" + files["TieProps"]["output"])
    lemmas = {}
    for f in TIE_FILES[2:]:
        body = strip_comments(open(os.path.join(TIE_DIR, f + ".v")).read())
        lemmas[f] = re.findall(r"^\s*(?:Lemma|Theorem)\s+(\w+)", body, re.M)
    notes = fx.get("notes", [])
    return dict(files=files, notes=notes, new_notes=[n for n in notes if n not in TIE_BASELINE_NOTES],
                emitted=len(fx.get("emitted", [])), literals=fx.get("literals", []), theorems=theorems, lemmas=lemmas)


def source_literals():
    """integer literals of the non-test Rust source of the working tree (generator hints)"""
    f = os.path.join(TIE_DIR, "facts.json")
    if not os.path.exists(f):
        source_tie()
    try:
        return json.load(open(f)).get("literals", [])
    except (OSError, ValueError):
        return []


def oracle_build():
    """Extract the model and compile the OCaml oracle (skipped when up to date)."""
    os.makedirs(ORACLE_DIR, exist_ok=True)
    exe = os.path.join(ORACLE_DIR, "oracle")
    srcs = [f for f in coq_sources() if "/Proofs/" not in f and "/Props/" not in f and "/Tie/" not in f]
    newest = max(os.path.getmtime(f) for f in srcs + [os.path.join(COQ, "Extract", "driver.ml")])
    if os.path.exists(exe) and os.path.getmtime(exe) >= newest:
        return True, "up to date"
    shutil.copy(os.path.join(COQ, "Extract", "driver.ml"), ORACLE_DIR)
    rc, out = sh(["coqc", "-noglob"] + coq_flags() + [os.path.join(COQ, "Extract", "Extract.v"), "-o",
                                                       os.path.join(ORACLE_DIR, "Extract.vo")], cwd=ORACLE_DIR)
    if rc != 0:
        return False, out
    rc, out2 = sh(["ocamlfind", "ocamlopt", "-O2", "-w", "-a", "oracle.mli", "oracle.ml", "driver.ml", "-o", "oracle"],
                  cwd=ORACLE_DIR)
    return rc == 0, out + out2


# --------------------------------------------------------------------------
# harness builds
# --------------------------------------------------------------------------
CONFIGS = {
    "dev": dict(release=False, nodefault=False, prof=0),
    "rel": dict(release=True, nodefault=False, prof=1),
    "dev-nb": dict(release=False, nodefault=True, prof=0),
    "rel-nb": dict(release=True, nodefault=True, prof=1),
}


def harness_build(cfg):
    c = CONFIGS[cfg]
    tdir = os.path.join(BUILD, "target-nb" if c["nodefault"] else "target")
    os.makedirs(tdir, exist_ok=True)
    lock = os.path.join(HARNESS, "Cargo.lock")
    src_lock = os.path.join(REPO, "Cargo.lock")
    if os.path.exists(src_lock) and (not os.path.exists(lock)):
        shutil.copy(src_lock, lock)
    cmd = ["cargo", "build", "--offline", "--target-dir", tdir]
    if c["release"]:
        cmd.append("--release")
    if c["nodefault"]:
        cmd.append("--no-default-features")
    env = dict(ENV)
    env["RUSTFLAGS"] = (env.get("RUSTFLAGS", "") + " -Awarnings --cfg multiboot2_verif").strip()
    rc, out = sh(cmd, cwd=HARNESS, timeout=3000, env=env)
    exe = os.path.join(tdir, "release" if c["release"] else "debug", "mb2-harness")
    return rc == 0, out, exe


# --------------------------------------------------------------------------
# running
# --------------------------------------------------------------------------
def parse_transcript(text):
    """'#i' headers followed by lines -> {i: [lines]}"""
    res, cur = {}, None
    for line in text.splitlines():
        if line.startswith("#"):
            try:
                cur = int(line[1:])
            except ValueError:
                continue
            res[cur] = []
        elif cur is not None:
            res[cur].append(line)
    return res


def _oracle_once(data, prof, timeout):
    p = subprocess.run(["bash", "-c", "ulimit -s unlimited 2>/dev/null; exec %s %d" %
                        (os.path.join(ORACLE_DIR, "oracle"), prof)],
                       input=data, stdout=subprocess.PIPE, stderr=subprocess.PIPE, text=True, timeout=timeout)
    if p.returncode != 0:
        raise RuntimeError("oracle failed: rc=%s %s" % (p.returncode, p.stderr[-2000:]))
    return parse_transcript(p.stdout)


def run_oracle(casefile, prof, timeout=3000, shards=12):
    """Runs the extracted model on every case (one line each); large case files are split over `shards`
    concurrent oracle processes (interleaved, so that expensive families spread evenly)."""
    with open(casefile) as f:
        lines = f.read().splitlines()
    if len(lines) < 4 * shards:
        return _oracle_once("\n".join(lines) + "\n", prof, timeout)
    from concurrent.futures import ThreadPoolExecutor
    parts = [lines[k::shards] for k in range(shards)]
    with ThreadPoolExecutor(max_workers=shards) as ex:
        outs = list(ex.map(lambda part: _oracle_once("\n".join(part) + "\n", prof, timeout), parts))
    res = {}
    for k, out in enumerate(outs):
        for j, ls in out.items():
            res[k + j * shards] = ls
    return res


def run_harness(exe, casefile, ncases, place="end", timeout=3000):
    """Runs the harness; a case whose execution kills the process is recorded as CRASH(sig)
    and the run continues after it."""
    res = {}
    skip = 0
    timeouts = 0
    t0 = time.time()
    while skip < ncases:
        p = subprocess.run([exe, casefile, "--skip", str(skip), "--place", place],
                           stdout=subprocess.PIPE, stderr=subprocess.PIPE, timeout=timeout)
        part = parse_transcript(p.stdout.decode("utf-8", "replace"))
        res.update(part)
        if p.returncode == 0:
            break
        last = max(part.keys()) if part else skip
        sig = -p.returncode if p.returncode < 0 else p.returncode
        kind = "TIMEOUT" if sig in (14, 27) else "CRASH(%d)" % sig      # SIGPROF: 20 s of CPU time; SIGALRM: wall-clock backstop
        res[last] = (res.get(last) or []) + [kind]
        skip = last + 1
        if kind == "TIMEOUT":
            timeouts += 1
        # every non-terminating case costs 20 s of CPU time: after three of them the run stops (the cases behind
        # are reported as not executed; the non-termination is the finding)
        if time.time() - t0 > timeout or timeouts >= 3:
            break
    return res


def coq_crosscheck(cases, expected, prof, workdir, max_cases=60):
    """Kernel-evaluated cross-check of the extracted oracle on a sample:
    Goal run_case p dom args = [lines]. vm_compute. reflexivity."""
    def coq_arg(tok_iter):
        out = []
        for t in tok_iter:
            if t == "]":
                break
            if t == "[":
                out.append("AL [" + "; ".join(coq_arg(tok_iter)) + "]")
            elif t.startswith("x"):
                h = t[1:]
                out.append("AB [" + "; ".join("x" + h[i:i + 2].lower() for i in range(0, len(h), 2)) + "]")
            else:
                out.append("AN %s" % t)
        return out
    head = ["Require Import Bytes Outcome Render Api.", "From Coq Require Import String.",
            "Open Scope string_scope.", "Open Scope N_scope."]
    goals = []
    for idx, case in cases[:max_cases]:
        toks = case.split()
        dom = toks[0]
        args = coq_arg(iter(toks[1:]))
        exp = expected.get(idx, [])
        goals.append('Goal run_case %d "%s" [%s] = [%s].\nProof. vm_compute. reflexivity. Qed.' % (
            prof, dom, "; ".join(args), "; ".join('"%s"' % e.replace('"', '""') for e in exp)))
    n = len(goals)
    shards = 8 if n >= 16 else 1

    def one(k):
        f = os.path.join(workdir, "cases_sample%d.v" % k)
        with open(f, "w") as fh:
            fh.write("\n".join(head + goals[k::shards]) + "\n")
        return sh(["coqc", "-noglob"] + coq_flags() + [f], cwd=workdir, timeout=1200)
    from concurrent.futures import ThreadPoolExecutor
    with ThreadPoolExecutor(max_workers=shards) as ex:
        rs = list(ex.map(one, range(shards)))
    return all(rc == 0 for rc, _ in rs), n, "\n".join(out for rc, out in rs if rc != 0)


def case_hash(lines):
    return hashlib.sha1("\n".join(lines).encode()).hexdigest()
