#!/usr/bin/env python3
"""Re-runs every seeded change against the quick check of the property it breaks, each in a private sandbox
(tools/sandbox_eval.sh: /repo is never touched), and records the outcome in seeded/<id>/meta.json under "final".
usage: regress_seeded.py [-j N] [id-prefix ...]"""
import concurrent.futures
import glob
import json
import os
import subprocess
import sys

V = os.path.dirname(os.path.dirname(os.path.abspath(__file__)))


def one(d):
    sid = os.path.basename(d)
    mf = os.path.join(d, "meta.json")
    m = json.load(open(mf))
    prop = m["breaks_property"]
    p = subprocess.run([os.path.join(V, "tools", "sandbox_eval.sh"), "rg-" + sid, os.path.join(d, "patch.diff"), prop],
                       stdout=subprocess.PIPE, stderr=subprocess.STDOUT, text=True, timeout=7200)
    line = next((l for l in p.stdout.splitlines() if l.startswith("rg-" + sid + " " + prop)), "")
    reported = " rc=1 " in line      # exit status 1 is given for a VIOLATION line only
    m["final"] = dict(check=prop, reported=reported, line=line[:200])
    if reported and not m.get("ran", {}).get("detected_by"):
        m["first_missed"] = True
    json.dump(m, open(mf, "w"), indent=1)
    return sid, reported, line[:120]


def main():
    a = sys.argv[1:]
    j = 3
    if "-j" in a:
        j = int(a[a.index("-j") + 1])
        del a[a.index("-j"):a.index("-j") + 2]
    dirs = sorted(d for d in glob.glob(os.path.join(V, "seeded", "*")) if os.path.exists(os.path.join(d, "meta.json")))
    if a:
        dirs = [d for d in dirs if any(os.path.basename(d).startswith(x) for x in a)]
    bad = []
    with concurrent.futures.ThreadPoolExecutor(max_workers=j) as ex:
        for sid, rep, line in ex.map(one, dirs):
            print(sid, "reported" if rep else "NOT REPORTED", line, flush=True)
            if not rep:
                bad.append(sid)
    print("not reported:", bad)


if __name__ == "__main__":
    main()
